package main

// Regression tests for the defects D1..D17 of DESIGN.md section 8.
// Each test states the behaviour the property demands; on the pinned tree
// (before the "fix:" commits) every one of them fails, after the fixes all pass.
// They are run first by `./check` for the property they belong to (corpus).

import (
	"bufio"
	"bytes"
	"context"
	"fmt"
	"io"
	"math"
	"mime/multipart"
	"net/http/httptest"
	"os"
	"os/exec"
	"path/filepath"
	"reflect"
	"runtime"
	"strings"
	"sync"
	"sync/atomic"
	"testing"
	"time"
	"unsafe"

	"github.com/gin-gonic/gin"
	"github.com/labstack/echo/v4"
	"google.golang.org/grpc"
	"google.golang.org/grpc/codes"
	"google.golang.org/grpc/status"
	"k3l.io/go-eigentrust/internal/playground"
	"k3l.io/go-eigentrust/pkg/api/openapi"
	computepb "k3l.io/go-eigentrust/pkg/api/pb/compute"
	tmpb "k3l.io/go-eigentrust/pkg/api/pb/trustmatrix"
	tvpb "k3l.io/go-eigentrust/pkg/api/pb/trustvector"
	"k3l.io/go-eigentrust/pkg/basic"
	"k3l.io/go-eigentrust/pkg/basic/server"
	grpcserver "k3l.io/go-eigentrust/pkg/basic/server/grpc"
	oapiserver "k3l.io/go-eigentrust/pkg/basic/server/oapi"
	"k3l.io/go-eigentrust/pkg/sparse"
)

// ---- D1 (C10) ----
func TestD1ShrinkGrow(t *testing.T) {
	m := sparse.NewCSRMatrix(3, 3, []sparse.CooEntry{{Row: 2, Column: 1, Value: 5}}, false)
	m.SetDim(1, 1)
	m.SetDim(3, 3)
	if m.NNZ() != 0 {
		t.Fatalf("row cut off by shrink came back: %v", m.Entries)
	}
}

// ---- D2 (C10) ----
func TestD2CSCView(t *testing.T) {
	m := sparse.NewCSRMatrix(2, 3, []sparse.CooEntry{{Row: 0, Column: 2, Value: 5}, {Row: 1, Column: 0, Value: 7}}, false)
	v := m.TransposeToCSC()
	r, c := v.Dims()
	if r != 3 || c != 2 {
		t.Fatalf("CSC view of the transpose of 2x3 has dims %dx%d, want 3x2", r, c)
	}
	if v.MajorDim != len(v.Entries) {
		t.Fatalf("MajorDim %d != len(Entries) %d", v.MajorDim, len(v.Entries))
	}
	back := v.TransposeToCSR()
	r, c = back.Dims()
	if r != 2 || c != 3 {
		t.Fatalf("CSR view back has dims %dx%d, want 2x3", r, c)
	}
}

// ---- D3 (C12) ----
func TestD3MmapEmptyLeavesNoTempFile(t *testing.T) {
	dir := t.TempDir()
	t.Setenv("TMPDIR", dir)
	m := sparse.NewCSRMatrix(3, 3, nil, false)
	_ = m.Mmap(context.Background())
	ents, _ := os.ReadDir(dir)
	if len(ents) != 0 {
		t.Fatalf("%d temp file(s) left after Mmap of an empty matrix", len(ents))
	}
}

// ---- D17 (C12) ----
func csmMappings() (out [][2]uintptr) {
	f, _ := os.Open("/proc/self/maps")
	defer f.Close()
	sc := bufio.NewScanner(f)
	for sc.Scan() {
		l := sc.Text()
		if strings.Contains(l, "eigentrust-server-csmatrix") {
			var a, b uintptr
			fmt.Sscanf(strings.Fields(l)[0], "%x-%x", &a, &b)
			out = append(out, [2]uintptr{a, b})
		}
	}
	return
}

func TestD17RowsOffHeap(t *testing.T) {
	dir := t.TempDir()
	t.Setenv("TMPDIR", dir)
	m := sparse.NewCSRMatrix(3, 3, []sparse.CooEntry{{Row: 0, Column: 0, Value: 1}, {Row: 0, Column: 2, Value: 4}, {Row: 2, Column: 1, Value: 5}}, false)
	if err := m.Mmap(context.Background()); err != nil {
		t.Fatal(err)
	}
	ms := csmMappings()
	if len(ms) != 1 {
		t.Fatalf("want 1 mapping, have %d", len(ms))
	}
	for i, row := range m.Entries {
		if len(row) == 0 {
			continue
		}
		p := uintptr(unsafe.Pointer(unsafe.SliceData(row)))
		if p < ms[0][0] || p >= ms[0][1] {
			t.Fatalf("row %d still on the Go heap after a successful swap-out", i)
		}
	}
	if err := m.Munmap(); err != nil {
		t.Fatal(err)
	}
	if n := len(csmMappings()); n != 0 {
		t.Fatalf("%d mappings after Munmap", n)
	}
	if m.NNZ() != 3 || m.Entries[2][0].Value != 5 {
		t.Fatalf("contents changed: %v", m.Entries)
	}
}

// ---- D21 (C12) ----
func TestD21TransposedMatrixIsFinalized(t *testing.T) {
	dir := t.TempDir()
	t.Setenv("TMPDIR", dir)
	base := len(csmMappings())
	func() {
		m := sparse.NewCSRMatrix(2, 2, []sparse.CooEntry{{Row: 0, Column: 1, Value: 1}}, false)
		mt, err := m.Transpose(context.Background())
		if err != nil {
			t.Fatal(err)
		}
		if err := mt.Mmap(context.Background()); err != nil {
			t.Fatal(err)
		}
		if n := len(csmMappings()); n != base+1 {
			t.Fatalf("want %d mappings, have %d", base+1, n)
		}
	}()
	for i := 0; i < 300 && len(csmMappings()) > base; i++ {
		runtime.GC()
		time.Sleep(time.Millisecond)
	}
	if n := len(csmMappings()); n != base {
		t.Fatalf("mapping of an unreachable transposed matrix is never released (%d left)", n-base)
	}
}

// ---- D4 (C07) ----
type roleCtx struct {
	context.Context
	k     int64
	n     atomic.Int64
	done  chan struct{}
	once  sync.Once
	fired atomic.Bool
	delay time.Duration
}

func callerIsCollector() bool {
	var pcs [8]uintptr
	n := runtime.Callers(3, pcs[:])
	frames := runtime.CallersFrames(pcs[:n])
	for {
		f, more := frames.Next()
		if strings.HasSuffix(f.Function, "(*Vector).MulVec") {
			return true
		}
		if strings.Contains(f.Function, "MulVec.func") {
			return false
		}
		if !more {
			return false
		}
	}
}

func (c *roleCtx) Done() <-chan struct{} {
	if c.n.Add(1) >= c.k {
		c.once.Do(func() { c.fired.Store(true); close(c.done) })
	}
	if c.delay > 0 && c.fired.Load() && callerIsCollector() {
		time.Sleep(c.delay)
	}
	return c.done
}
func (c *roleCtx) Err() error {
	if c.fired.Load() {
		return context.Canceled
	}
	return nil
}

func TestD4MulVecNoPartialSuccess(t *testing.T) {
	old := runtime.GOMAXPROCS(8)
	defer runtime.GOMAXPROCS(old)
	dim := 8
	var coo []sparse.CooEntry
	var es []sparse.Entry
	for i := 0; i < dim; i++ {
		coo = append(coo, sparse.CooEntry{Row: i, Column: i, Value: 1}, sparse.CooEntry{Row: i, Column: (i + 1) % dim, Value: 2})
		es = append(es, sparse.Entry{Index: i, Value: float64(i + 1)})
	}
	m := sparse.NewCSRMatrix(dim, dim, coo, false)
	v1 := sparse.NewVector(dim, es)
	var full sparse.Vector
	cc := &roleCtx{Context: context.Background(), k: 1 << 60, done: make(chan struct{})}
	_ = full.MulVec(cc, m, v1)
	total := cc.n.Load()
	bad := 0
	for rep := 0; rep < 12 && bad == 0; rep++ {
		for k := int64(1); k <= total; k++ {
			c := &roleCtx{Context: context.Background(), k: k, done: make(chan struct{}), delay: 300 * time.Microsecond}
			var v sparse.Vector
			err := v.MulVec(c, m, v1)
			if err == nil && !reflect.DeepEqual(v, full) {
				bad++
			}
		}
	}
	if bad > 0 {
		t.Fatalf("%d partial successes (nil error with an incomplete product)", bad)
	}
}

// ---- D5 (C18) ----
func TestD5LeadersFromTop(t *testing.T) {
	c := sparse.NewCSRMatrix(3, 3, []sparse.CooEntry{{Row: 0, Column: 1, Value: 1}, {Row: 1, Column: 2, Value: 1}, {Row: 2, Column: 0, Value: 1}, {Row: 2, Column: 1, Value: 3}}, false)
	p := sparse.NewVector(3, []sparse.Entry{{Index: 0, Value: 1}, {Index: 1, Value: 2}, {Index: 2, Value: 3}})
	basic.CanonicalizeTrustVector(p)
	if err := basic.CanonicalizeLocalTrust(c, p); err != nil {
		t.Fatal(err)
	}
	var st basic.FlatTailStats
	tv, err := basic.Compute(context.Background(), c, p, 0.3, 1e-9, basic.WithFlatTailNumLeaders(1), basic.WithFlatTailStats(&st))
	if err != nil {
		t.Fatal(err)
	}
	best, bestV := -1, math.Inf(-1)
	for _, e := range tv.Entries {
		if e.Value > bestV {
			best, bestV = e.Index, e.Value
		}
	}
	if len(st.Ranking) != 1 || st.Ranking[0] != best {
		t.Fatalf("numLeaders=1 ranking %v, top-scored peer is %d (scores %v)", st.Ranking, best, tv.Entries)
	}
}

// ---- D6 (C05) ----
func TestD6OverflowTerminates(t *testing.T) {
	c := sparse.NewCSRMatrix(2, 2, []sparse.CooEntry{{Row: 0, Column: 0, Value: 1e308}, {Row: 0, Column: 1, Value: 1e308}, {Row: 1, Column: 0, Value: 1}}, false)
	p := sparse.NewVector(2, []sparse.Entry{{Index: 0, Value: 1}})
	basic.CanonicalizeTrustVector(p)
	_ = basic.CanonicalizeLocalTrust(c, p)
	ctx, cancel := context.WithTimeout(context.Background(), 2*time.Second)
	defer cancel()
	_, err := basic.Compute(ctx, c, p, 0.5, 1e-6)
	if err == context.DeadlineExceeded || err == context.Canceled {
		t.Fatalf("Compute did not terminate on overflowing row sums (watchdog fired)")
	}
}

// ---- gRPC helpers ----
type mstream struct {
	grpc.ServerStream
	parts []*tmpb.GetResponse
}

func (s *mstream) Send(r *tmpb.GetResponse) error { s.parts = append(s.parts, r); return nil }
func (s *mstream) Context() context.Context       { return context.Background() }

type vstream struct {
	grpc.ServerStream
	parts []*tvpb.GetResponse
}

func (s *vstream) Send(r *tvpb.GetResponse) error { s.parts = append(s.parts, r); return nil }
func (s *vstream) Context() context.Context       { return context.Background() }

// ---- D7 (C16) ----
func TestD7TimestampMonotone(t *testing.T) {
	ctx := context.Background()
	core, err := server.NewCore(ctx)
	if err != nil {
		t.Fatal(err)
	}
	ms := grpcserver.NewTrustMatrixServer(&core.StoredTrustMatrices)
	id := "m"
	_, _ = ms.Create(ctx, &tmpb.CreateRequest{Id: id})
	up := func(ts uint64) {
		_, err := ms.Update(ctx, &tmpb.UpdateRequest{Header: &tmpb.Header{Id: &id, TimestampQwords: []uint64{ts}},
			Entries: []*tmpb.Entry{{Truster: "0", Trustee: "1", Value: 1}}})
		if err != nil {
			t.Fatal(err)
		}
	}
	up(10)
	up(5)
	s := &mstream{}
	_ = ms.Get(&tmpb.GetRequest{Id: id}, s)
	ts := s.parts[0].GetHeader().TimestampQwords
	if len(ts) != 1 || ts[0] != 10 {
		t.Fatalf("timestamp after updates 10 then 5 is %v, want [10]", ts)
	}
}

// ---- D8 (C17) ----
func TestD8MaxIterationsHonoured(t *testing.T) {
	ctx := context.Background()
	core, err := server.NewCore(ctx)
	if err != nil {
		t.Fatal(err)
	}
	ms := grpcserver.NewTrustMatrixServer(&core.StoredTrustMatrices)
	vs := grpcserver.NewTrustVectorServer(&core.StoredTrustVectors)
	cs := grpcserver.NewGrpcServer(core)
	id := "m"
	_, _ = ms.Create(ctx, &tmpb.CreateRequest{Id: id})
	_, err = ms.Update(ctx, &tmpb.UpdateRequest{Header: &tmpb.Header{Id: &id}, Entries: []*tmpb.Entry{
		{Truster: "0", Trustee: "1", Value: 1}, {Truster: "1", Trustee: "2", Value: 1}, {Truster: "2", Trustee: "0", Value: 1}}})
	if err != nil {
		t.Fatal(err)
	}
	for _, v := range []string{"p", "g"} {
		_, _ = vs.Create(ctx, &tvpb.CreateRequest{Id: v})
	}
	pid := "p"
	_, _ = vs.Update(ctx, &tvpb.UpdateRequest{Header: &tvpb.Header{Id: &pid}, Entries: []*tvpb.Entry{{Trustee: "0", Value: 1}}})
	a, e := 0.5, 1e-12
	_, err = cs.BasicCompute(ctx, &computepb.BasicComputeRequest{Params: &computepb.Params{
		LocalTrustId: "m", PreTrustId: "p", GlobalTrustId: "g", Alpha: &a, Epsilon: &e, MaxIterations: 1}})
	if err != nil {
		t.Fatal(err)
	}
	s := &vstream{}
	_ = vs.Get(&tvpb.GetRequest{Id: "g"}, s)
	// one iteration from the uniform start (1/3,1/3,1/3): t = 0.5*C^T t + 0.5*p = (2/3, 1/6, 1/6)
	got := map[string]float64{}
	for _, p := range s.parts[1:] {
		got[p.GetEntry().Trustee] = p.GetEntry().Value
	}
	if math.Abs(got["0"]-2.0/3) > 1e-9 || math.Abs(got["1"]-1.0/6) > 1e-9 {
		t.Fatalf("max_iterations=1 not honoured: scores %v, want one iterate (2/3,1/6,1/6)", got)
	}
}

// ---- D11 (C15) ----
func TestD11GrpcNegativeIndex(t *testing.T) {
	ctx := context.Background()
	core, err := server.NewCore(ctx)
	if err != nil {
		t.Fatal(err)
	}
	ms := grpcserver.NewTrustMatrixServer(&core.StoredTrustMatrices)
	vs := grpcserver.NewTrustVectorServer(&core.StoredTrustVectors)
	id := "m"
	_, _ = ms.Create(ctx, &tmpb.CreateRequest{Id: id})
	_, _ = vs.Create(ctx, &tvpb.CreateRequest{Id: id})
	func() {
		defer func() {
			if r := recover(); r != nil {
				t.Fatalf("matrix Update with negative index panicked: %v", r)
			}
		}()
		_, err := ms.Update(ctx, &tmpb.UpdateRequest{Header: &tmpb.Header{Id: &id}, Entries: []*tmpb.Entry{{Truster: "-1", Trustee: "1", Value: 1}}})
		if status.Code(err) != codes.InvalidArgument {
			t.Fatalf("matrix Update with negative index: %v, want InvalidArgument", err)
		}
		_, err = ms.Update(ctx, &tmpb.UpdateRequest{Header: &tmpb.Header{Id: &id}, Entries: []*tmpb.Entry{{Truster: "1", Trustee: "-2", Value: 1}}})
		if status.Code(err) != codes.InvalidArgument {
			t.Fatalf("matrix Update with negative trustee: %v, want InvalidArgument", err)
		}
	}()
	func() {
		defer func() {
			if r := recover(); r != nil {
				t.Fatalf("vector Update with negative index panicked: %v", r)
			}
		}()
		_, err := vs.Update(ctx, &tvpb.UpdateRequest{Header: &tvpb.Header{Id: &id}, Entries: []*tvpb.Entry{{Trustee: "-1", Value: 1}}})
		if status.Code(err) != codes.InvalidArgument {
			t.Fatalf("vector Update with negative index: %v, want InvalidArgument", err)
		}
		s := &vstream{}
		if err := vs.Get(&tvpb.GetRequest{Id: id}, s); err != nil || len(s.parts) != 1 {
			t.Fatalf("vector changed by the refused update: %v %v", err, s.parts)
		}
	}()
}

// ---- HTTP helpers ----
func newEcho(t *testing.T) *echo.Echo {
	e := echo.New()
	srv, err := oapiserver.NewStrictServerImpl(context.Background())
	if err != nil {
		t.Fatal(err)
	}
	openapi.RegisterHandlersWithBaseURL(e, openapi.NewStrictHandler(srv, nil), "/basic/v1")
	return e
}

func doHTTP(e *echo.Echo, method, path, body string) (code int, out string, panicked interface{}) {
	defer func() { panicked = recover() }()
	req := httptest.NewRequest(method, path, strings.NewReader(body))
	if body != "" {
		req.Header.Set("Content-Type", "application/json")
	}
	rec := httptest.NewRecorder()
	e.ServeHTTP(rec, req)
	b, _ := io.ReadAll(rec.Body)
	return rec.Code, strings.TrimSpace(string(b)), nil
}

// ---- D12 (C13) ----
func TestD12InvalidPutIs400AndGetRoundTrips(t *testing.T) {
	e := newEcho(t)
	for _, body := range []string{
		`{"scheme":"inline","size":0,"entries":[]}`,
		`{"scheme":"inline","size":2,"entries":[{"i":5,"j":0,"v":1}]}`,
		`{"scheme":"bogus"}`,
	} {
		code, _, _ := doHTTP(e, "PUT", "/basic/v1/local-trust/a", body)
		if code != 400 {
			t.Errorf("PUT %s -> %d, want 400", body, code)
		}
		if code, _, _ := doHTTP(e, "HEAD", "/basic/v1/local-trust/a", ""); code != 404 {
			t.Errorf("store changed by refused PUT %s", body)
		}
	}
	code, _, _ := doHTTP(e, "PUT", "/basic/v1/local-trust/a", `{"scheme":"inline","size":3,"entries":[{"i":0,"j":1,"v":1},{"i":1,"j":2,"v":-2}]}`)
	if code != 201 {
		t.Fatalf("PUT -> %d", code)
	}
	_, body, _ := doHTTP(e, "GET", "/basic/v1/local-trust/a", "")
	code, _, _ = doHTTP(e, "PUT", "/basic/v1/local-trust/b", body)
	if code != 201 {
		t.Fatalf("PUT of a GET body %s -> %d, want 201", body, code)
	}
	_, body2, _ := doHTTP(e, "GET", "/basic/v1/local-trust/b", "")
	if body != body2 {
		t.Fatalf("round trip differs: %s vs %s", body, body2)
	}
}

// ---- D13 (C15) ----
func TestD13IterationOptions400(t *testing.T) {
	e := newEcho(t)
	lt := `"localTrust":{"scheme":"inline","size":3,"entries":[{"i":0,"j":1,"v":1},{"i":1,"j":2,"v":1},{"i":2,"j":0,"v":1}]}`
	for _, opt := range []string{`"maxIterations":-1`, `"minIterations":0`, `"checkFreq":0`, `"numLeaders":-1`, `"flatTail":-1`} {
		for _, ep := range []string{"compute", "compute-with-stats"} {
			code, body, p := doHTTP(e, "POST", "/basic/v1/"+ep, `{`+lt+`,`+opt+`}`)
			if p != nil {
				t.Errorf("%s %s panicked: %v", ep, opt, p)
			} else if code != 400 {
				t.Errorf("%s %s -> %d %s, want 400", ep, opt, code, body)
			}
		}
	}
}

// ---- D9 (C20) ----
func TestD9PlaygroundSparsePreTrust(t *testing.T) {
	gin.SetMode(gin.TestMode)
	gr := gin.New()
	gr.LoadHTMLGlob("/repo/templates/*")
	playground.AddRoutes(gr)
	post := func(lt, pt string) (code int, body string, p interface{}) {
		defer func() { p = recover() }()
		var b bytes.Buffer
		w := multipart.NewWriter(&b)
		f, _ := w.CreateFormFile("localTrustFile", "lt.csv")
		f.Write([]byte(lt))
		f, _ = w.CreateFormFile("preTrustFile", "pt.csv")
		f.Write([]byte(pt))
		w.WriteField("hunchPercent", "50")
		w.Close()
		req := httptest.NewRequest("POST", "/calculate", &b)
		req.Header.Set("Content-Type", w.FormDataContentType())
		rec := httptest.NewRecorder()
		gr.ServeHTTP(rec, req)
		return rec.Code, rec.Body.String(), nil
	}
	for _, pt := range []string{"0,1\n", "2,1\n", "0,1\n1,1\n2,1\n"} {
		code, body, p := post("0,1,1\n1,2,1\n2,0,1\n", pt)
		if p != nil {
			t.Fatalf("pre-trust %q: panic %v", pt, p)
		}
		if code != 200 || !strings.Contains(body, "</html>") || strings.Count(body, "<tr") < 4 {
			t.Fatalf("pre-trust %q: status %d, complete=%v, rows=%d", pt, code, strings.Contains(body, "</html>"), strings.Count(body, "<tr"))
		}
	}
}

// ---- D10 (C15/C19) ----
// buildCLI builds the CLI from /repo's working tree (through this module's replace directive).
func buildCLI(t *testing.T) string {
	t.Helper()
	bin := filepath.Join(t.TempDir(), "eigentrust")
	cmd := exec.Command("go", "build", "-o", bin, "k3l.io/go-eigentrust/cmd/eigentrust")
	cmd.Env = append(os.Environ(), "GOFLAGS=-mod=mod", "GOPROXY=off", "GOSUMDB=off", "GOTOOLCHAIN=local")
	if out, err := cmd.CombinedOutput(); err != nil {
		t.Fatalf("go build: %v\n%s", err, out)
	}
	return bin
}

func TestD10CliShortRecords(t *testing.T) {
	cli := buildCLI(t)
	dir := t.TempDir()
	lt := filepath.Join(dir, "lt.csv")
	pt := filepath.Join(dir, "pt.csv")
	os.WriteFile(lt, []byte("from,to\nalice,bob\nbob,carol\n"), 0o644)
	os.WriteFile(pt, []byte("peer\nalice\n"), 0o644)
	cmd := exec.Command(cli, "basic", "compute", "--print-request", "-l", lt, "-p", pt)
	var stdout, stderr bytes.Buffer
	cmd.Stdout, cmd.Stderr = &stdout, &stderr
	err := cmd.Run()
	if strings.Contains(stderr.String(), "panic") || err != nil {
		t.Fatalf("CLI on 2-field / 1-field records: err=%v stderr=%s", err, stderr.String())
	}
	if !strings.Contains(stdout.String(), `"v":1`) {
		t.Fatalf("expected default level 1 in the request, got %s", stdout.String())
	}
}

// ---- D19 (C17): an unknown positive-only vector id must be reported ----
func TestD19UnknownPositiveGtIsNotFound(t *testing.T) {
	ctx := context.Background()
	core, err := server.NewCore(ctx)
	if err != nil {
		t.Fatal(err)
	}
	ms := grpcserver.NewTrustMatrixServer(&core.StoredTrustMatrices)
	vs := grpcserver.NewTrustVectorServer(&core.StoredTrustVectors)
	cs := grpcserver.NewGrpcServer(core)
	id := "m"
	_, _ = ms.Create(ctx, &tmpb.CreateRequest{Id: id})
	_, _ = ms.Update(ctx, &tmpb.UpdateRequest{Header: &tmpb.Header{Id: &id}, Entries: []*tmpb.Entry{{Truster: "0", Trustee: "1", Value: 1}, {Truster: "1", Trustee: "0", Value: 1}}})
	_, _ = vs.Create(ctx, &tvpb.CreateRequest{Id: "g"})
	_, err = cs.BasicCompute(ctx, &computepb.BasicComputeRequest{Params: &computepb.Params{LocalTrustId: "m", GlobalTrustId: "g", PositiveGlobalTrustId: "nope"}})
	if status.Code(err) != codes.NotFound {
		t.Fatalf("BasicCompute with an unknown positive-only vector id: %v, want NotFound", err)
	}
	s := &vstream{}
	_ = vs.Get(&tvpb.GetRequest{Id: "g"}, s)
	if len(s.parts) != 1 {
		t.Fatalf("global trust was written although the request was refused: %v", s.parts)
	}
}

// ---- D20 (C05/C15): NaN alpha / epsilon are out of range ----
func TestD20NaNParametersRejected(t *testing.T) {
	c := sparse.NewCSRMatrix(2, 2, []sparse.CooEntry{{Row: 0, Column: 1, Value: 1}, {Row: 1, Column: 0, Value: 1}}, false)
	p := sparse.NewVector(2, nil)
	basic.CanonicalizeTrustVector(p)
	_ = basic.CanonicalizeLocalTrust(c, p)
	for _, ae := range [][2]float64{{0.5, math.NaN()}, {math.NaN(), 1e-6}} {
		ctx, cancel := context.WithTimeout(context.Background(), 2*time.Second)
		_, err := basic.Compute(ctx, c, p, ae[0], ae[1])
		cancel()
		if err == nil || err == context.DeadlineExceeded {
			t.Fatalf("Compute(alpha=%v, epsilon=%v): %v, want a parameter error before iterating", ae[0], ae[1], err)
		}
	}
}

// ---- D22 (C15) ----
func TestD22GrpcUnparsableIndexIsInvalidArgument(t *testing.T) {
	ctx := context.Background()
	core, err := server.NewCore(ctx)
	if err != nil {
		t.Fatal(err)
	}
	ms := grpcserver.NewTrustMatrixServer(&core.StoredTrustMatrices)
	vs := grpcserver.NewTrustVectorServer(&core.StoredTrustVectors)
	id := "x"
	_, _ = ms.Create(ctx, &tmpb.CreateRequest{Id: id})
	_, _ = vs.Create(ctx, &tvpb.CreateRequest{Id: id})
	for _, bad := range []string{"abc", "", "1.5", " 2", "99999999999999999999"} {
		_, err := ms.Update(ctx, &tmpb.UpdateRequest{Header: &tmpb.Header{Id: &id}, Entries: []*tmpb.Entry{{Truster: bad, Trustee: "0", Value: 1}}})
		if status.Code(err) != codes.InvalidArgument {
			t.Errorf("matrix Update truster %q -> %v, want InvalidArgument", bad, status.Code(err))
		}
		_, err = ms.Update(ctx, &tmpb.UpdateRequest{Header: &tmpb.Header{Id: &id}, Entries: []*tmpb.Entry{{Truster: "0", Trustee: bad, Value: 1}}})
		if status.Code(err) != codes.InvalidArgument {
			t.Errorf("matrix Update trustee %q -> %v, want InvalidArgument", bad, status.Code(err))
		}
		_, err = vs.Update(ctx, &tvpb.UpdateRequest{Header: &tvpb.Header{Id: &id}, Entries: []*tvpb.Entry{{Trustee: bad, Value: 1}}})
		if status.Code(err) != codes.InvalidArgument {
			t.Errorf("vector Update trustee %q -> %v, want InvalidArgument", bad, status.Code(err))
		}
	}
}

// ---- D23 (C15) ----
func TestD23GrpcBasicComputeWithoutParams(t *testing.T) {
	ctx := context.Background()
	core, err := server.NewCore(ctx)
	if err != nil {
		t.Fatal(err)
	}
	cs := grpcserver.NewGrpcServer(core)
	func() {
		defer func() {
			if p := recover(); p != nil {
				t.Fatalf("BasicCompute on a request without params panics (a gRPC server process exits on a handler panic): %v", p)
			}
		}()
		_, err := cs.BasicCompute(ctx, &computepb.BasicComputeRequest{})
		if c := status.Code(err); c != codes.InvalidArgument && c != codes.NotFound {
			t.Fatalf("BasicCompute without params -> %v, want InvalidArgument", c)
		}
	}()
}

// ---- D24 (C15): server-side CSV (objectstorage file:// references, enabled with --use-file-uri) ----
func newEchoFileURI(t *testing.T) *echo.Echo {
	e := echo.New()
	e.HideBanner = true
	srv, err := oapiserver.NewStrictServerImpl(context.Background())
	if err != nil {
		t.Fatal(err)
	}
	srv.UseFileURI = true
	openapi.RegisterHandlersWithBaseURL(e, openapi.NewStrictHandler(srv, nil), "/basic/v1")
	return e
}

func TestD24ServerSideCsvNegativeIndexAndReadErrors(t *testing.T) {
	e := newEchoFileURI(t)
	dir := t.TempDir()
	write := func(name, text string) string {
		p := filepath.Join(dir, name)
		if err := os.WriteFile(p, []byte(text), 0o644); err != nil {
			t.Fatal(err)
		}
		return p
	}
	good := write("good.csv", "i,j,v\n0,1,1\n1,0,1\n")
	body := func(lt string) string {
		return `{"localTrust":{"scheme":"objectstorage","url":"file://` + lt + `"}}`
	}
	if code, b, p := doHTTP(e, "POST", "/basic/v1/compute", body(good)); p != nil || code != 200 {
		t.Fatalf("well-formed server-side CSV -> %d %s %v", code, b, p)
	}
	for name, text := range map[string]string{
		"negrow.csv":   "i,j,v\n-1,0,1\n",
		"negcol.csv":   "i,j,v\n0,-1,1\n",
		"badquote.csv": "i,j,v\n0,1,1\n\"0,1,2\n",
	} {
		code, b, p := doHTTP(e, "POST", "/basic/v1/compute", body(write(name, text)))
		if p != nil {
			t.Errorf("%s: handler panics: %v", name, p)
		} else if code != 400 {
			t.Errorf("%s -> %d %s, want 400", name, code, b)
		}
	}
	ptBad := write("negvec.csv", "i,v\n-1,1\n")
	code, b, p := doHTTP(e, "POST", "/basic/v1/compute", `{"localTrust":{"scheme":"objectstorage","url":"file://`+good+`"},"preTrust":{"scheme":"objectstorage","url":"file://`+ptBad+`"}}`)
	if p != nil {
		t.Errorf("negative index in a server-side pre-trust CSV: handler panics: %v", p)
	} else if code != 400 {
		t.Errorf("negative index in a server-side pre-trust CSV -> %d %s, want 400", code, b)
	}
}

// ---- D25 (C15) ----
func TestD25ServerSideCsvEmptyMatrixIs400(t *testing.T) {
	e := newEchoFileURI(t)
	p := filepath.Join(t.TempDir(), "empty.csv")
	_ = os.WriteFile(p, []byte("i,j,v\n"), 0o644)
	code, b, pn := doHTTP(e, "POST", "/basic/v1/compute", `{"localTrust":{"scheme":"objectstorage","url":"file://`+p+`"}}`)
	if pn != nil || code != 400 {
		t.Fatalf("empty server-side trust matrix CSV -> %d %s %v, want 400", code, b, pn)
	}
}

package main

import (
	"bufio"
	"encoding/json"
	"fmt"
	"os"
	"strings"
	"testing"
	"unsafe"

	"k3l.io/go-eigentrust/pkg/sparse"
)

// C12 at the server: whatever sequence of PUTs (plain or ?merge=true) built a stored local trust, its entries
// live in the swap-out mapping, not on the Go heap: the bytes mapped from csmatrix temp files cover the stored
// non-zeros after every request, and no temp file stays behind.
func TestC12StoredLocalTrustStaysSwappedOut(t *testing.T) {
	dir := t.TempDir()
	t.Setenv("TMPDIR", dir)
	t.Setenv("AWS_EC2_METADATA_DISABLED", "true")
	e := newOapiServer()
	entrySize := uint64(unsafe.Sizeof(sparse.Entry{}))
	body := func(size, rowLo, rowHi, perRow int) string {
		var es []string
		for i := rowLo; i < rowHi; i++ {
			for k := 0; k < perRow; k++ {
				es = append(es, fmt.Sprintf(`{"i":%d,"j":%d,"v":%d}`, i, k, 1+i+k))
			}
		}
		return fmt.Sprintf(`{"scheme":"inline","size":%d,"entries":[%s]}`, size, strings.Join(es, ","))
	}
	stored := func(id string) uint64 {
		r := httpDo(e, "GET", "/basic/v1/local-trust/"+id, "")
		if r.Code != 200 {
			t.Fatalf("GET %s -> %d", id, r.Code)
		}
		var m struct {
			Entries []json.RawMessage `json:"entries"`
		}
		if err := json.Unmarshal([]byte(r.Body), &m); err != nil {
			t.Fatal(err)
		}
		return uint64(len(m.Entries))
	}
	const size, perRow = 64, 64
	steps := []struct {
		id, query      string
		lo, hi, expect int
	}{
		{"a", "", 0, 16, 201},
		{"a", "?merge=true", 16, 32, 200}, // new rows merged into a swapped-out matrix
		{"a", "?merge=true", 8, 24, 200},  // overlapping rows
		{"b", "?merge=true", 0, 8, 201},   // merge into a fresh id
		{"b", "?merge=true", 40, 64, 200},
		{"a", "", 0, 4, 200}, // plain replace
		{"a", "?merge=true", 60, 64, 200},
	}
	for k, s := range steps {
		r := httpDo(e, "PUT", "/basic/v1/local-trust/"+s.id+s.query, body(size, s.lo, s.hi, perRow))
		if r.Code != s.expect {
			t.Fatalf("step %d: PUT %s%s -> %d, want %d", k, s.id, s.query, r.Code, s.expect)
		}
		want := stored("a") * entrySize
		if k >= 3 {
			want += stored("b") * entrySize
		}
		if have := mappedBytesUnder(dir); have < want {
			t.Fatalf("step %d (PUT %s%s rows %d..%d): %d bytes in swap-out mappings, the stored matrices hold %d bytes of entries: rows were left on the Go heap",
				k, s.id, s.query, s.lo, s.hi, have, want)
		}
		if n := len(dirEntries(dir)); n != 0 {
			t.Fatalf("step %d: %d temp files left in TMPDIR", k, n)
		}
	}
	// leave the process as it was found (later tests count mappings): drop the server, let the finalizers run
	e = nil
	gcUntil(func() bool { return mappedBytesUnder(dir) == 0 })
	if left := mappedBytesUnder(dir); left != 0 {
		t.Fatalf("%d bytes still mapped after the server became unreachable", left)
	}
}

// mappedBytesUnder: bytes of this process mapped from csmatrix temp files created under dir
func mappedBytesUnder(dir string) uint64 {
	f, err := os.Open("/proc/self/maps")
	if err != nil {
		return 0
	}
	defer f.Close()
	var total uint64
	sc := bufio.NewScanner(f)
	sc.Buffer(make([]byte, 1<<20), 1<<20)
	for sc.Scan() {
		l := sc.Text()
		if strings.Contains(l, dir+"/eigentrust-server-csmatrix") {
			var a, b uint64
			fmt.Sscanf(strings.Fields(l)[0], "%x-%x", &a, &b)
			total += b - a
		}
	}
	return total
}

func dirEntries(dir string) []string {
	ents, _ := os.ReadDir(dir)
	var out []string
	for _, e := range ents {
		out = append(out, e.Name())
	}
	return out
}

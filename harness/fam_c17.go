package main

import (
	"fmt"
	"math"
	"math/big"
	"strconv"
	"strings"
)

// C17: gRPC BasicCompute embedded in a history.

type c17In struct {
	LT      []GOp   `json:"lt"`  // updates of matrix 0
	PT      []GOp   `json:"pt"`  // updates of vector 0 (pre-trust); empty + NoPre => no pre-trust named
	GT      []GOp   `json:"gt"`  // updates of vector 1 (global trust, warm start)
	POS     []GOp   `json:"pos"` // updates of vector 2 (positive-only)
	NoPre   bool    `json:"no_pre"`
	UsePos  bool    `json:"use_pos"`
	Missing string  `json:"missing,omitempty"` // which id to leave uncreated: lt, pt, gt, pos
	Alpha   *JFloat `json:"alpha,omitempty"`
	Eps     *JFloat `json:"eps,omitempty"`
	Max     uint32  `json:"max,omitempty"`
	Twice   bool    `json:"twice,omitempty"` // repeated computes (warm start from the previous result)
}

func genC17(r *Rng, tier string) []*Case {
	var cs []*Case
	reps := 200
	if tier != "quick" {
		reps = 4000
	}
	for k := 0; k < reps; k++ {
		in := c17In{}
		n := 1 + r.Intn(6)
		// local trust: valid indices, signed values, several update batches with timestamps
		for b := 0; b < 1+r.Intn(3); b++ {
			o := GOp{Op: "mupdate", ID: 0, TS: []uint64{uint64(r.Intn(30))}}
			seen := map[string]bool{}
			for e := 0; e < 1+r.Intn(2*n); e++ {
				i, j := r.Intn(n), r.Intn(n)
				key := fmt.Sprint(i, ",", j)
				if seen[key] {
					continue
				}
				seen[key] = true
				v := r.Pos()
				if r.Chance(20) {
					v = -v
				}
				if r.Chance(10) {
					v = 0
				}
				o.Es = append(o.Es, GEntry{I: strconv.Itoa(i), J: strconv.Itoa(j), V: JFloat(v)})
			}
			in.LT = append(in.LT, o)
		}
		vecUpd := func(id, dim int) []GOp {
			var out []GOp
			for b := 0; b < r.Intn(3); b++ {
				o := GOp{Op: "vupdate", ID: id, TS: []uint64{uint64(r.Intn(30))}}
				seen := map[int]bool{}
				for e := 0; e < 1+r.Intn(dim+1); e++ {
					i := r.Intn(dim)
					if seen[i] {
						continue
					}
					seen[i] = true
					o.Es = append(o.Es, GEntry{I: strconv.Itoa(i), V: JFloat(r.Pos())})
				}
				out = append(out, o)
			}
			return out
		}
		rel := func() int { return []int{n, n, 1 + r.Intn(n), n + 1 + r.Intn(3)}[r.Intn(4)] }
		in.PT = vecUpd(0, rel())
		in.NoPre = r.Chance(25)
		in.GT = vecUpd(1, rel())
		in.UsePos = r.Chance(50)
		if in.UsePos {
			in.POS = vecUpd(2, rel())
			if r.Chance(30) { // the positive-only vector carries a newer timestamp than every input
				in.POS = append(in.POS, GOp{Op: "vupdate", ID: 2, TS: []uint64{500}})
			}
		}
		if r.Chance(60) {
			a := JFloat([]float64{0.1, 0.3, 0.5, 0.9, 1}[r.Intn(5)])
			in.Alpha = &a
		}
		if r.Chance(50) {
			e := JFloat([]float64{1e-3, 1e-6, 1e-9}[r.Intn(3)])
			in.Eps = &e
		}
		if r.Chance(30) {
			in.Max = uint32(1 + r.Intn(6))
		}
		in.Twice = r.Chance(20)
		if k%6 == 5 { // one collection much larger than the others, defaults in force, slow convergence:
			// the default epsilon 1e-6/n and the alignment must use the largest dimension
			big := n + 10 + r.Intn(30)
			wide := GOp{Op: "vupdate", ID: 1, TS: []uint64{3}, Es: []GEntry{{I: strconv.Itoa(big - 1), V: JFloat(r.Pos())}, {I: "0", V: JFloat(r.Pos())}}}
			switch r.Intn(3) {
			case 0:
				in.GT = append(in.GT, wide)
			case 1:
				wide.ID = 0
				in.PT, in.NoPre = append(in.PT, wide), false
			default:
				in.LT = append(in.LT, GOp{Op: "mupdate", ID: 0, TS: []uint64{4}, Es: []GEntry{{I: strconv.Itoa(big - 1), J: "0", V: 1}}})
			}
			in.Eps, in.Max = nil, 0
			a := JFloat([]float64{0.1, 0.2, 0.3}[r.Intn(3)])
			in.Alpha = &a
		}
		switch r.Intn(25) {
		case 0:
			in.Missing = "lt"
		case 1:
			in.Missing = "pt"
		case 2:
			in.Missing = "gt"
		case 3:
			in.Missing, in.UsePos = "pos", true
		case 4:
			a := JFloat(1.5)
			in.Alpha = &a
		case 5:
			e := JFloat(0)
			in.Eps = &e
		case 6:
			e := JFloat(2)
			in.Eps = &e
		case 7:
			a := JFloat(-0.5)
			in.Alpha = &a
		case 10, 11: // a compute that fails inside the iteration (a pre-trust entry is +Inf), after the inputs were
			// aligned and canonicalised: the stored global trust (not summing to 1) must be left exactly as it was
			in.PT, in.NoPre = append(in.PT, GOp{Op: "vupdate", ID: 0, TS: []uint64{7}, Es: []GEntry{{I: strconv.Itoa(r.Intn(n)), V: JFloat(math.Inf(1))}}}), false
			in.GT = append(in.GT, GOp{Op: "vupdate", ID: 1, TS: []uint64{2}, Es: []GEntry{{I: "0", V: JFloat(3 + r.Pos())}, {I: strconv.Itoa(n - 1), V: JFloat(r.Pos())}}})
			in.Max, in.Twice = 0, false // (with an iteration limit the run may end before a check sees the NaN: outside the property)
		case 8, 9: // an explicit alpha = 0 is a valid value, not "unset": bounded by max_iterations
			a := JFloat(0)
			in.Alpha = &a
			in.Max = uint32(1 + r.Intn(8))
		}
		cs = append(cs, mk("BCHist", in))
	}
	return cs
}

func tsOf(resp string) string { // "RVector [5%N] [...]" -> N literal of the timestamp
	if !strings.HasPrefix(resp, "RVector ") && !strings.HasPrefix(resp, "RMatrix ") {
		return ""
	}
	a, b := strings.Index(resp, "["), strings.Index(resp, "]")
	v := new(big.Int)
	for _, w := range strings.Split(resp[a+1:b], ";") {
		w = strings.TrimSpace(strings.TrimSuffix(strings.TrimSpace(w), "%N"))
		if w == "" {
			continue
		}
		x, _ := new(big.Int).SetString(w, 10)
		v.Lsh(v, 64)
		v.Or(v, x)
	}
	return v.String()
}
func entsOf(resp string) string { // the entry list literal
	i := strings.Index(resp, "] ")
	return resp[i+2:]
}

func runC17(c *Case) error {
	var in c17In
	c.decode(&in)
	g := newGrpc()
	var reqs, resps []string
	do := func(o GOp) string {
		rq, rs, _ := g.exec(o)
		reqs = append(reqs, rq)
		resps = append(resps, rs)
		return rs
	}
	if in.Missing != "lt" {
		do(GOp{Op: "mcreate", ID: 0})
		for _, o := range in.LT {
			do(o)
		}
	}
	if in.Missing != "pt" {
		do(GOp{Op: "vcreate", ID: 0})
		for _, o := range in.PT {
			do(o)
		}
	}
	if in.Missing != "gt" {
		do(GOp{Op: "vcreate", ID: 1})
		for _, o := range in.GT {
			do(o)
		}
	}
	if in.UsePos && in.Missing != "pos" {
		do(GOp{Op: "vcreate", ID: 2})
		for _, o := range in.POS {
			do(o)
		}
	}
	dimOf := func(ops []GOp, matrix bool) int {
		d := 0
		for _, o := range ops {
			for _, e := range o.Es {
				i, _ := strconv.Atoi(e.I)
				if i+1 > d {
					d = i + 1
				}
				if matrix {
					j, _ := strconv.Atoi(e.J)
					if j+1 > d {
						d = j + 1
					}
				}
			}
		}
		return d
	}
	comp := GOp{Op: "compute", ID: 0, Global: 1, Alpha: in.Alpha, Eps: in.Eps, Max: in.Max}
	if !in.NoPre {
		comp.Pre = ip(0)
	}
	if in.UsePos {
		comp.Positive = ip(2)
	}
	if in.Twice {
		do(comp)
	}
	ltB, ptB, gtB, posB := do(GOp{Op: "mget", ID: 0}), do(GOp{Op: "vget", ID: 0}), do(GOp{Op: "vget", ID: 1}), do(GOp{Op: "vget", ID: 2})
	st := do(comp)
	ltA, ptA, gtA, posA := do(GOp{Op: "mget", ID: 0}), do(GOp{Op: "vget", ID: 0}), do(GOp{Op: "vget", ID: 1}), do(GOp{Op: "vget", ID: 2})
	info := "None"
	// the structured oracle applies when every collection exists
	if strings.HasPrefix(ltB, "RMatrix") && strings.HasPrefix(gtB, "RVector") && (in.NoPre || strings.HasPrefix(ptB, "RVector")) && strings.HasPrefix(st, "RStatus") {
		opt := func(resp string, withDim bool, dim int) string {
			if !strings.HasPrefix(resp, "RVector") {
				return "None"
			}
			if withDim {
				return fmt.Sprintf("(Some (%d%%N, %s, %s%%N))", dim, entsOf(resp), tsOf(resp))
			}
			return fmt.Sprintf("(Some (%s, %s%%N))", entsOf(resp), tsOf(resp))
		}
		pt, ptAfter := "None", "None"
		if !in.NoPre {
			pt, ptAfter = opt(ptB, true, dimOf(in.PT, false)), opt(ptA, false, 0)
		}
		pos, posAfter := "None", "None"
		if in.UsePos {
			pos, posAfter = opt(posB, false, 0), opt(posA, false, 0)
		}
		gtDim := dimOf(in.GT, false)
		if in.Twice { // after a first compute the global vector has the aligned dimension
			gtDim = dimOf(in.LT, true)
			if d := dimOf(in.PT, false); !in.NoPre && d > gtDim {
				gtDim = d
			}
			if d := dimOf(in.GT, false); d > gtDim {
				gtDim = d
			}
		}
		info = fmt.Sprintf("(Some (BI %d%%N %s %s%%N %s %d%%N %s %s%%N %s %s %s %d%%N %s%%N %s %s%%N %s %s %s%%N %s))",
			dimOf(in.LT, true), entsOf(ltB), tsOf(ltB), pt, gtDim, entsOf(gtB), tsOf(gtB), pos,
			optF(in.Alpha), optF(in.Eps), in.Max, strings.TrimPrefix(st, "RStatus "),
			entsOf(ltA), tsOf(ltA), ptAfter, entsOf(gtA), tsOf(gtA), posAfter)
	}
	c.setObs(map[string]interface{}{"status": st, "global_after": gtA})
	c.coq = fmt.Sprintf("BCHist %s %s %s", cList(reqs), cList(resps), info)
	c.Nontrivial = st == "RStatus 0"
	c.Tags = []string{"status:" + strings.TrimPrefix(st, "RStatus "), fmt.Sprintf("oracle-info:%v", info != "None")}
	return nil
}

func init() { register(&Family{ID: "C17", Import: "Corr.C17", Gen: genC17, Run: runC17}) }

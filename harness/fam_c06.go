package main

import (
	"context"
	"encoding/json"
	"fmt"
	"k3l.io/go-eigentrust/pkg/basic"
	"reflect"
	"runtime"
	"sync"
	"sync/atomic"
	"time"

	"k3l.io/go-eigentrust/pkg/sparse"
)

// C06: determinism and schedule independence.

type c06Mul struct {
	M Mat `json:"m"`
	V Vec `json:"v"`
}

var procsList = []int{1, 2, 3, 4, 8, 16}

// withLoad runs f while `n` goroutines spin (scheduler pressure).
func withLoad(n int, f func()) {
	var stop atomic.Bool
	var wg sync.WaitGroup
	for i := 0; i < n; i++ {
		wg.Add(1)
		go func() {
			defer wg.Done()
			x := 0
			for !stop.Load() {
				x++
				if x%1000 == 0 {
					runtime.Gosched()
				}
			}
		}()
	}
	f()
	stop.Store(true)
	wg.Wait()
}

func genC06(r *Rng, tier string) []*Case {
	var cs []*Case
	dims := []int{1, 2, 3, 5, 17, 31, 32, 33, 64, 100, 257}
	if tier != "quick" {
		dims = append(dims, 500, 1000, 2000)
	} else {
		dims = append(dims, 700)
	}
	for _, n := range dims {
		reps := 2
		if n > 300 {
			reps = 1
		}
		for k := 0; k < reps; k++ {
			m := Mat{Major: n, Minor: n, Rows: make([][]Ent, n)}
			for i := range m.Rows {
				// skewed costs: a few long rows early, many cheap ones after
				fill := 300 / (n + 1)
				if fill < 1 {
					fill = 1
				}
				if i < 3 {
					fill = 60
				}
				m.Rows[i] = sortedSpan(r, n, fill, 0, r.Val)
			}
			v := Vec{Dim: n, Ents: sortedSpan(r, n, r.Pick(50, 100), 0, r.Val)}
			cs = append(cs, mk("MulVecRuns", c06Mul{M: m, V: v}))
		}
	}
	nc := 12
	if tier != "quick" {
		nc = 120
	}
	for k := 0; k < nc; k++ {
		n := 2 + r.Intn(60)
		if k%4 == 0 {
			n = 100 + r.Intn(200)
		}
		if k%3 == 1 {
			n = 2 + r.Intn(10) // flat-tail cases: small enough for the ranking (ties, sort) to be modelled
		}
		c, p, _ := randGraph(r, n)
		cc, pc, err := canonInputs(c, p)
		if err != nil {
			continue
		}
		in := ComputeIn{C: cc, P: pc, A: JFloat([]float64{0.5, 0.3, 0.15}[r.Intn(3)]), E: JFloat(1e-8), Fuel: 1000, WatchdogMs: 60000}
		if k%3 == 1 {
			// flat tail as the binding criterion: a loose epsilon, so that the run ends when the ranking has been
			// stable for the required number of checks
			in.FlatTail, in.E = ip(3+r.Intn(5)), JFloat(0.5)
		}
		if r.Bool() {
			t0 := canonVec(Vec{Dim: n, Ents: sortedSpan(r, n, 60, 0, r.Pos)})
			in.T0 = &t0
		}
		if k%3 == 2 {
			in.Reweigh = 1 + k%2
		}
		cs = append(cs, mk("ComputeRuns", in))
	}
	return cs
}

func runC06(c *Case) error {
	old := runtime.GOMAXPROCS(0)
	defer runtime.GOMAXPROCS(old)
	switch c.Kind {
	case "MulVecRuns":
		var in c06Mul
		c.decode(&in)
		m := in.M.csr()
		v := in.V.sparse()
		distinct := map[string]string{}
		runs := 0
		one := func() {
			var out sparse.Vector
			err := out.MulVec(context.Background(), m, v)
			s, _ := oresOf(&out, err)
			if err != nil {
				s, _ = oresOf(nil, err)
			}
			distinct[s] = s
			runs++
		}
		for _, p := range procsList {
			runtime.GOMAXPROCS(p)
			for rep := 0; rep < 3; rep++ {
				one()
			}
			withLoad(p, one)
		}
		// concurrent products of the same operands
		runtime.GOMAXPROCS(8)
		var mu sync.Mutex
		var wg sync.WaitGroup
		for g := 0; g < 6; g++ {
			wg.Add(1)
			go func() {
				defer wg.Done()
				var out sparse.Vector
				err := out.MulVec(context.Background(), m, v)
				s, _ := oresOf(&out, err)
				mu.Lock()
				distinct[s] = s
				runs++
				mu.Unlock()
			}()
		}
		wg.Wait()
		same := sameMat(in.M, &m.CSMatrix) && sameVec(in.V, v)
		var ds []string
		for s := range distinct {
			ds = append(ds, s)
		}
		c.setObs(map[string]interface{}{"distinct": len(ds), "runs": runs, "inputs_same": same})
		c.coq = fmt.Sprintf("MulVecRuns %s %s %s %d %s", cMat(in.M), cVec(in.V), cList(ds), runs, cBool(same))
		c.Nontrivial = in.M.Major > 1
		c.Tags = []string{fmt.Sprintf("mulvec-dim:%d", bucket(in.M.Major)), fmt.Sprintf("distinct-outcomes:%d", len(ds))}
	case "ComputeRuns":
		var in ComputeIn
		c.decode(&in)
		distinct := map[string]ComputeObs{}
		runs := 0
		same := true
		var mu sync.Mutex
		one := func() {
			obs := runCompute(context.Background(), &in)
			mu.Lock()
			defer mu.Unlock()
			runs++
			same = same && obs.InputsSame
			o := obs
			o.WallMs = 0
			b, _ := json.Marshal(o)
			distinct[string(b)] = obs
		}
		for _, p := range []int{1, 2, 4, 16} {
			runtime.GOMAXPROCS(p)
			one()
		}
		runtime.GOMAXPROCS(8)
		withLoad(4, one)
		var wg sync.WaitGroup
		for g := 0; g < 4; g++ { // concurrently with other computes
			wg.Add(1)
			go func() { defer wg.Done(); one() }()
		}
		wg.Wait()
		var first ComputeObs
		for _, o := range distinct {
			first = o
			break
		}
		// the same computation by callers that pass no statistics struct (the checker's private default), several at
		// once: each must return the very vector of the runs above
		if len(distinct) == 1 && first.Kind == "done" && first.T != nil {
			noStats := func() {
				opts := []basic.ComputeOpt{}
				if in.T0 != nil {
					opts = append(opts, basic.WithInitialTrust(in.T0.sparse()))
				}
				if in.FlatTail != nil {
					opts = append(opts, basic.WithFlatTail(*in.FlatTail))
				}
				t, err := basic.Compute(newFuelCtx(context.Background(), in.Fuel), in.C.csr(), in.P.sparse(), float64(in.A), float64(in.E), opts...)
				mu.Lock()
				defer mu.Unlock()
				runs++
				if err != nil || t == nil || !reflect.DeepEqual(vecOf(t), *first.T) {
					o := first
					o.Kind = "no-stats caller: different result"
					if t != nil {
						v := vecOf(t)
						o.T = &v
					}
					b, _ := json.Marshal(o)
					distinct[string(b)] = o
				}
			}
			for round := 0; round < 3; round++ {
				for g := 0; g < 6; g++ {
					wg.Add(1)
					go func() { defer wg.Done(); noStats() }()
				}
				wg.Wait()
			}
		}
		c.setObs(map[string]interface{}{"first": first, "distinct": len(distinct), "runs": runs, "inputs_same": same})
		c.coq = fmt.Sprintf("ComputeRuns (%s) %d %d %s", coqCompute(&in, &first), len(distinct)-1, runs, cBool(same))
		c.Nontrivial = first.Kind == "done" && first.Iters > 1
		c.Tags = []string{fmt.Sprintf("compute-dim:%d", bucket(in.C.Major)), fmt.Sprintf("distinct-outcomes:%d", len(distinct))}
		_ = time.Now
	default:
		return fmt.Errorf("unknown kind %s", c.Kind)
	}
	return nil
}

func init() { register(&Family{ID: "C06", Import: "Corr.C06", Gen: genC06, Run: runC06}) }

package main

import (
	"bytes"
	"context"
	"fmt"
	"html"
	"mime/multipart"
	"net/http/httptest"
	"regexp"
	"strconv"
	"strings"
	"sync"

	"github.com/gin-gonic/gin"
	"k3l.io/go-eigentrust/internal/playground"
)

// C20: POST /calculate on a gin engine loaded with the repository's templates.

type c20In struct {
	Names *string `json:"names,omitempty"`
	LT    *string `json:"lt,omitempty"`
	PT    *string `json:"pt,omitempty"`
	Hunch *string `json:"hunch,omitempty"` // the form field, absent = default
	Fuel  int     `json:"fuel"`
	// Usable: well-formed by construction (set by the generator only): complete records, ids that
	// resolve, numeric values, confidence absent or in 1..100.  The property promises a result page.
	Usable bool `json:"usable,omitempty"`
}

var (
	pgOnce   sync.Once
	pgEngine *gin.Engine
)

func playgroundEngine() *gin.Engine {
	pgOnce.Do(func() {
		gin.SetMode(gin.TestMode)
		pgEngine = gin.New()
		pgEngine.LoadHTMLGlob("/repo/templates/*")
		playground.AddRoutes(pgEngine)
	})
	return pgEngine
}

type pgResp struct {
	Code  int
	Body  string
	Panic string
	Hang  bool
}

func pgPost(in *c20In) (r pgResp) {
	var b bytes.Buffer
	w := multipart.NewWriter(&b)
	add := func(field, fn string, text *string) {
		if text != nil {
			f, _ := w.CreateFormFile(field, fn)
			_, _ = f.Write([]byte(*text))
		}
	}
	add("peerNamesFile", "names.csv", in.Names)
	add("localTrustFile", "lt.csv", in.LT)
	add("preTrustFile", "pt.csv", in.PT)
	if in.Hunch != nil {
		_ = w.WriteField("hunchPercent", *in.Hunch)
	}
	w.Close()
	fc := newFuelCtx(context.Background(), in.Fuel)
	req := httptest.NewRequest("POST", "/calculate", &b).WithContext(fc)
	req.Header.Set("Content-Type", w.FormDataContentType())
	rec := httptest.NewRecorder()
	func() {
		defer func() {
			if p := recover(); p != nil {
				r.Panic = fmt.Sprint(p)
			}
		}()
		playgroundEngine().ServeHTTP(rec, req)
	}()
	r.Code, r.Body, r.Hang = rec.Code, rec.Body.String(), fc.fired.Load()
	return
}

var pgRowRe = regexp.MustCompile(`(?s)<tr\s*(style="font-weight: bold")?\s*>\s*<td>(\d+)</td>\s*<td>(.*?)</td>\s*<td>([^<]*)</td>\s*<td>([^<]*)</td>\s*</tr>`)
var pgArcsRe = regexp.MustCompile(`\((\d+) arcs,`)

var c20PlainName = regexp.MustCompile(`^[A-Za-z][A-Za-z0-9_.-]*$`)

func genC20(r *Rng, tier string) []*Case {
	var cs []*Case
	reps := 160
	if tier != "quick" {
		reps = 2500
	}
	for k := 0; k < reps; k++ {
		n := 1 + r.Intn(7)
		useNames := r.Chance(50)
		names := c19Names(r, n)
		malformed := r.Chance(15)
		id := func(i int) string {
			if useNames {
				return names[i]
			}
			return strconv.Itoa(i)
		}
		in := c20In{Fuel: 6000}
		ltCols, ptCols, hunchOK := 0, 0, true
		if useNames {
			rows := make([][]string, n)
			for i := range rows {
				rows[i] = []string{names[i]}
			}
			if malformed && r.Chance(20) {
				rows = append(rows, rows[0])
			}
			t := csvText(rows)
			in.Names = &t
		}
		// local trust over the first ltN peers, pre-trust over a subset of the first ptN peers
		ltN, ptN := 1+r.Intn(n), 1+r.Intn(n)
		if r.Chance(40) {
			ltN, ptN = n, n
		}
		{
			var rows [][]string
			seen := map[[2]int]bool{}
			m := r.Intn(3 * ltN)
			cols := r.Pick(3, 3, 3, 2)
			ltCols = cols
			for i := 0; i < m; i++ {
				a, b := r.Intn(ltN), r.Intn(ltN)
				if seen[[2]int{a, b}] {
					continue
				}
				seen[[2]int{a, b}] = true
				v := strconv.Itoa(1 + r.Intn(100))
				switch w := r.Intn(100); {
				case w < 10:
					v = strconv.FormatFloat(r.Pos(), 'g', -1, 64)
				case w < 18:
					v = "-" + strconv.Itoa(1+r.Intn(50)) // distrust
				case w < 22:
					v = "0"
				case w < 25 && malformed:
					v = c19Value(r)
				}
				row := []string{id(a), id(b), v}[:cols]
				if malformed && r.Chance(5) {
					row = row[:1]
				}
				rows = append(rows, row)
			}
			if malformed && r.Chance(10) && !useNames {
				rows = append(rows, []string{"-1", "0", "1"}[:cols])
			}
			t := csvText(rows)
			in.LT = &t
		}
		{
			var rows [][]string
			cols := r.Pick(2, 2, 1)
			ptCols = cols
			switch w := r.Intn(100); {
			case w < 12: // none pre-trusted
			case w < 30: // a single peer, often the highest index
				i := ptN - 1
				if r.Chance(40) {
					i = r.Intn(ptN)
				}
				rows = append(rows, []string{id(i), strconv.Itoa(1 + r.Intn(9))}[:cols])
			case w < 45: // every peer
				for i := 0; i < ptN; i++ {
					rows = append(rows, []string{id(i), strconv.Itoa(1 + r.Intn(9))}[:cols])
				}
			default:
				for i := 0; i < ptN; i++ {
					if r.Chance(45) {
						v := strconv.Itoa(1 + r.Intn(9))
						if r.Chance(8) {
							v = "0"
						}
						if malformed && r.Chance(10) {
							v = c19Value(r)
						}
						rows = append(rows, []string{id(i), v}[:cols])
					}
				}
				// any order
				perm := r.Perm(len(rows))
				sh := make([][]string, len(rows))
				for i, p := range perm {
					sh[i] = rows[p]
				}
				rows = sh
			}
			if malformed && useNames && r.Chance(10) {
				rows = append(rows, []string{"nobody", "1"}[:cols])
			}
			t := csvText(rows)
			in.PT = &t
		}
		switch w := r.Intn(100); {
		case w < 8:
			// absent: default 10
		case w < 81:
			h := strconv.Itoa(1 + r.Intn(100))
			in.Hunch = &h
		case w < 88:
			h := "100"
			in.Hunch = &h
		case w < 94:
			// very low confidence: thousands of iterations before the hard-coded epsilon is met
			h := []string{"1", "1", "2", "3"}[r.Intn(4)]
			in.Hunch = &h
		default:
			h := []string{"0", "-1", "101", "abc", "", "5.5", "1e2"}[r.Intn(7)]
			in.Hunch = &h
			hunchOK = false
		}
		if malformed && r.Chance(12) {
			switch r.Intn(2) {
			case 0:
				in.LT = nil
			default:
				in.PT = nil
			}
		}
		plain := true
		if useNames {
			for _, nm := range names {
				if !c20PlainName.MatchString(nm) {
					plain = false
				}
			}
		}
		in.Usable = plain && !malformed && hunchOK && ltCols == 3 && ptCols == 2 && (useNames || *in.LT != "" || *in.PT != "")
		cs = append(cs, mk("Calc", in))
	}
	return cs
}

func runC20(c *Case) error {
	var in c20In
	c.decode(&in)
	r := pgPost(&in)
	obs := ""
	switch {
	case r.Panic != "":
		obs = "OPanic"
		c.Tags = []string{"page:panic"}
	case r.Hang:
		obs = "OHang"
		c.Tags = []string{"page:watchdog"}
		if z, err := strconv.Atoi(hunchOr(in.Hunch, "10")); err == nil && z >= 1 && z <= 100 {
			// the hard-coded epsilon 1e-15 is below the rounding noise of the binary64 iteration
			// (known finding; recognised only when the model's iteration stalls in the same way)
			c.Known = "playground.calculate:epsilon-1e-15-below-binary64-noise"
		}
	case r.Code == 400 && strings.Contains(r.Body, "<title>Error</title>"):
		obs = "O400"
		c.Tags = []string{"page:400"}
	case r.Code == 200 && strings.Contains(r.Body, "</html>"):
		ms := pgRowRe.FindAllStringSubmatch(r.Body, -1)
		var rows []string
		for rank, m := range ms {
			if rk, _ := strconv.Atoi(m[2]); rk != rank {
				panic(fmt.Sprintf("result page: rank column %q at position %d", m[2], rank))
			}
			v, err := strconv.ParseFloat(strings.TrimSpace(html.UnescapeString(m[4])), 64)
			if err != nil {
				panic(fmt.Sprintf("result page: score %q does not parse", m[4]))
			}
			rows = append(rows, fmt.Sprintf("ORow %s %s %s", cName(html.UnescapeString(m[3])), cfs(v), cBool(m[1] != "")))
		}
		am := pgArcsRe.FindStringSubmatch(r.Body)
		if am == nil {
			panic("result page: no arc count")
		}
		obs = fmt.Sprintf("(O200 %s %s)", cList(rows), am[1])
		c.Nontrivial = len(rows) > 1
		c.Tags = []string{"page:200", fmt.Sprintf("peers:%d", bucket(len(rows)))}
	default:
		// neither the result page nor the error page: a server error or a truncated page
		panic(fmt.Sprintf("status %d with an incomplete or unknown page: %s", r.Code, tail(r.Body, 300)))
	}
	c.setObs(map[string]interface{}{"status": r.Code, "panic": r.Panic, "watchdog": r.Hang, "body_tail": tail(r.Body, 400)})
	h := "CHAbsent"
	if in.Hunch != nil {
		if z, err := strconv.Atoi(*in.Hunch); err == nil {
			h = fmt.Sprintf("(CHVal %s)", cZ(z))
		} else {
			h = "CHBad"
		}
	}
	c.Tags = append(c.Tags, fmt.Sprintf("names:%v", in.Names != nil))
	c.coq = fmt.Sprintf("Calc %s %s %s %s %s %d %s", cBool(in.Usable), cOptCsv(in.Names), cOptCsv(in.LT), cOptCsv(in.PT), h, in.Fuel, obs)
	return nil
}

func hunchOr(h *string, d string) string {
	if h == nil {
		return d
	}
	return *h
}

func init() { register(&Family{ID: "C20", Import: "Corr.C20", Gen: genC20, Run: runC20}) }

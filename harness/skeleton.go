package main

import (
	"bytes"
	"fmt"
	"go/ast"
	"go/parser"
	"go/printer"
	"go/token"
	"os"
	"regexp"
	"strings"
)

// Skeleton extractor (DESIGN.md C07): regenerates, from /repo's current source, the
// structural facts the goroutine-protocol model of Vector.MulVec is parameterised by.
// Every top-level statement of MulVec is printed without comments, whitespace-normalised
// and compared with the shape the model was written for; two facts are extracted as
// booleans instead of being required (so that their absence shows up as a failing proof
// obligation with a concrete unsafe trace): the context check after the collect loop, and
// the final sort by index.  Anything else that is not recognised yields "unknown = true",
// which fails the obligation.

var ws = regexp.MustCompile(`\s+`)

func normStmt(fset *token.FileSet, n ast.Node) string {
	var buf bytes.Buffer
	_ = printer.Fprint(&buf, fset, n)
	return strings.TrimSpace(ws.ReplaceAllString(buf.String(), " "))
}

var skelExpected = []string{
	`dim, err := m.Dim()`,
	`if err != nil { return err }`,
	`if dim != v1.Dim { return ErrDimensionMismatch }`,
	`jobs := make(chan int, dim)`,
	`go func() { defer close(jobs) for row := 0; row < dim; row++ { select { case <-ctx.Done(): return case jobs <- row: } } }()`,
	`numWorkers := N`,
	`var wg sync.WaitGroup`,
	`wg.Add(numWorkers)`,
	`entries := make(chan Entry, dim)`,
	`for workerIndex := 0; workerIndex < numWorkers; workerIndex++ { go func(workerIndex int) { defer wg.Done() row, ok := 0, false for { select { case <-ctx.Done(): return case row, ok = <-jobs: if !ok { return } } product := VecDot(m.RowVector(row), v1) select { case <-ctx.Done(): return case entries <- Entry{Index: row, Value: product}: } } }(workerIndex) }`,
	`go func() { wg.Wait() close(entries) }()`,
	`var sortedEntries []Entry`,
	`Loop: for { select { case <-ctx.Done(): return ctx.Err() case e, ok := <-entries: if !ok { break Loop } if e.Value != 0 { sortedEntries = append(sortedEntries, e) } } }`,
	// optional: POSTCHECK
	// optional: SORT
	`v.Dim = dim`,
	`v.Entries = sortedEntries`,
	`return nil`,
}

const skelPostCheck = `if err := ctx.Err(); err != nil { return err }`
const skelSort = `sort.Sort(EntriesByIndex(sortedEntries))`

var numLit = regexp.MustCompile(`^numWorkers := ([0-9]+)$`)

func extractSkeleton(src, out string) error {
	fset := token.NewFileSet()
	f, err := parser.ParseFile(fset, src, nil, 0) // comments dropped
	if err != nil {
		return err
	}
	var fn *ast.FuncDecl
	for _, d := range f.Decls {
		if fd, ok := d.(*ast.FuncDecl); ok && fd.Name.Name == "MulVec" && fd.Recv != nil {
			fn = fd
		}
	}
	unknown := ""
	postCheck, finalSort := false, false
	workers := 0
	var got []string
	if fn == nil || fn.Body == nil {
		unknown = "method MulVec not found"
	} else {
		for _, st := range fn.Body.List {
			got = append(got, normStmt(fset, st))
		}
		i := 0
		for _, exp := range skelExpected {
			if exp == `v.Dim = dim` {
				// optional statements sit between the collect loop and the publication of the result
				for i < len(got) && (got[i] == skelPostCheck || got[i] == skelSort) {
					if got[i] == skelPostCheck {
						if finalSort {
							// a check placed after the sort is still before publication: fine
						}
						postCheck = true
					} else {
						finalSort = true
					}
					i++
				}
			}
			if i >= len(got) {
				unknown = "statement missing: " + exp
				break
			}
			g := got[i]
			if exp == `numWorkers := N` {
				m := numLit.FindStringSubmatch(g)
				if m == nil {
					unknown = "unrecognised worker count: " + g
					break
				}
				fmt.Sscan(m[1], &workers)
				if workers < 1 {
					unknown = "no workers"
					break
				}
			} else if g != exp {
				unknown = "unrecognised statement: " + g
				break
			}
			i++
		}
		if unknown == "" && i != len(got) {
			unknown = "trailing statement: " + got[i]
		}
	}
	var sb strings.Builder
	sb.WriteString("(* GENERATED on every run by `harness -skeleton` from " + src + " — do not edit. *)\n")
	sb.WriteString("(* Structural facts of Vector.MulVec the goroutine-protocol model is parameterised by. *)\n")
	fmt.Fprintf(&sb, "Definition skel_recognised : bool := %s.\n", cBool(unknown == ""))
	fmt.Fprintf(&sb, "(* %s *)\n", strings.ReplaceAll(strings.ReplaceAll(unknown, "*)", "* )"), "(*", "( *"))
	fmt.Fprintf(&sb, "Definition skel_post_check : bool := %s.   (* ctx.Err() is re-checked after the collect loop, before the result is published *)\n", cBool(postCheck))
	fmt.Fprintf(&sb, "Definition skel_final_sort : bool := %s.   (* sort.Sort(EntriesByIndex(...)) before publication *)\n", cBool(finalSort))
	fmt.Fprintf(&sb, "Definition skel_workers : nat := %d.\n", workers)
	sb.WriteString("(* recognised, hence assumed by the model: both channels have capacity dim (sends never block);\n   producer, workers (both selects) and collector poll ctx.Done(); one VecDot per received row;\n   jobs is closed by the producer on exit; entries is closed after wg.Wait(). *)\n")
	return os.WriteFile(out, []byte(sb.String()), 0o644)
}

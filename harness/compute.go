package main

import (
	"bytes"
	"context"
	"encoding/json"
	"errors"
	"fmt"
	"runtime"
	"strings"
	"sync"
	"sync/atomic"
	"time"

	"github.com/rs/zerolog"
	"k3l.io/go-eigentrust/pkg/basic"
	"k3l.io/go-eigentrust/pkg/sparse"
)

// ComputeIn is a replayable input of basic.Compute.
type ComputeIn struct {
	C          Mat    `json:"c"`
	P          Vec    `json:"p"`
	A          JFloat `json:"a"`
	E          JFloat `json:"e"`
	T0         *Vec   `json:"t0,omitempty"`
	ResultDim  *int   `json:"result_dim,omitempty"` // WithResultIn(&Vector{Dim: d, one junk entry})
	FlatTail   *int   `json:"flat_tail,omitempty"`
	NumLeaders *int   `json:"num_leaders,omitempty"`
	Max        *int   `json:"max,omitempty"`
	Min        *int   `json:"min,omitempty"`
	Freq       *int   `json:"freq,omitempty"`
	UseWithIt  bool   `json:"use_with_iterations,omitempty"` // Max==Min passed through WithIterations
	Repeat     int    `json:"repeat,omitempty"`              // extra runs on the very same input objects before the observed one
	// Reweigh: the matrix object is first computed on with other weights on the same arcs (each row's values
	// rotated), then given its real weights in place (1) or by a Merge (2): the observed run must see the matrix
	// as it is now (no stale transpose or other memo keyed by the object, its shape or its number of entries)
	Reweigh int `json:"reweigh,omitempty"`
	Fuel       int    `json:"fuel"`
	WatchdogMs int    `json:"watchdog_ms"`
}

// ComputeObs is what was observed.
type ComputeObs struct {
	Kind       string  `json:"kind"` // done, failed, timeout, panic
	T          *Vec    `json:"t,omitempty"`
	Iters      int     `json:"iters"`
	Len        int     `json:"len"`
	Thr        int     `json:"thr"`
	Delta      JFloat  `json:"delta"`
	HasRanking bool    `json:"has_ranking"`
	Ranking    []int   `json:"ranking"`
	Code       int     `json:"code"`
	Err        string  `json:"err,omitempty"`
	ResultInOK bool    `json:"result_in_ok"` // caller-supplied vector equals the returned one on success / untouched on failure
	InputsSame bool    `json:"inputs_same"`  // c, p, t0 deep-equal before and after
	WallMs     float64 `json:"wall_ms"`
}

func errCode(err error) int {
	switch {
	case err == nil:
		return 0
	case errors.Is(err, sparse.ErrDimensionMismatch):
		return 1
	case errors.Is(err, context.Canceled), errors.Is(err, context.DeadlineExceeded):
		return 11
	}
	s := err.Error()
	switch {
	case strings.Contains(s, "empty local trust"):
		return 2
	case strings.Contains(s, "out of range [0..1]"):
		return 3
	case strings.Contains(s, "is not positive"):
		return 4
	case strings.Contains(s, "checkFreq="):
		return 5
	case strings.Contains(s, "not finite"):
		return 6
	case strings.Contains(s, "maxIters="):
		return 7
	case strings.Contains(s, "minIters="):
		return 8
	case errors.Is(err, sparse.ErrZeroSum):
		return 9
	}
	return 10
}

func sameVec(a Vec, v *sparse.Vector) bool {
	b := vecOf(v)
	if a.Dim != b.Dim || len(a.Ents) != len(b.Ents) {
		return false
	}
	for i := range a.Ents {
		if a.Ents[i].I != b.Ents[i].I || hexf(float64(a.Ents[i].V)) != hexf(float64(b.Ents[i].V)) {
			return false
		}
	}
	return true
}
func sameMat(a Mat, m *sparse.CSMatrix) bool {
	b := matOf(m)
	if a.Major != b.Major || a.Minor != b.Minor || len(a.Rows) != len(b.Rows) {
		return false
	}
	for i := range a.Rows {
		if !sameVec(Vec{Ents: a.Rows[i]}, &sparse.Vector{Entries: toEntries(b.Rows[i])}) {
			return false
		}
	}
	return true
}

// fuelCtx cancels itself when basic.Compute's own loop polls it for the (fuel+1)-th
// time, i.e. at the top of iteration number `fuel`: the exact counterpart of the
// model running out of fuel.  Polls from MulVec/Transpose are not counted.
type fuelCtx struct {
	context.Context
	fuel  int64
	n     atomic.Int64
	done  chan struct{}
	once  sync.Once
	fired atomic.Bool
}

func newFuelCtx(parent context.Context, fuel int) *fuelCtx {
	return &fuelCtx{Context: parent, fuel: int64(fuel), done: make(chan struct{})}
}
func (c *fuelCtx) Done() <-chan struct{} {
	var pcs [1]uintptr
	if runtime.Callers(2, pcs[:]) == 1 {
		if f := runtime.FuncForPC(pcs[0] - 1); f != nil && f.Name() == "k3l.io/go-eigentrust/pkg/basic.Compute" {
			if c.n.Add(1) > c.fuel {
				c.once.Do(func() { c.fired.Store(true); close(c.done) })
			}
		}
	}
	select {
	case <-c.Context.Done():
		c.once.Do(func() { c.fired.Store(true); close(c.done) })
	default:
	}
	return c.done
}
func (c *fuelCtx) Err() error {
	if c.fired.Load() {
		if err := c.Context.Err(); err != nil {
			return err
		}
		return context.DeadlineExceeded
	}
	return nil
}

// runCompute runs basic.Compute on the input with the given parent context.
func runCompute(parent context.Context, in *ComputeIn) (obs ComputeObs) {
	var buf bytes.Buffer
	logger := zerolog.New(&buf).Level(zerolog.DebugLevel)
	ctx := logger.WithContext(parent)
	wd := in.WatchdogMs
	if wd <= 0 {
		wd = 20000
	}
	ctx, cancel := context.WithTimeout(ctx, time.Duration(wd)*time.Millisecond)
	defer cancel()
	if in.Fuel > 0 {
		ctx = newFuelCtx(ctx, in.Fuel)
	}
	c := in.C.csr()
	p := in.P.sparse()
	var t0 *sparse.Vector
	var stats basic.FlatTailStats
	opts := []basic.ComputeOpt{basic.WithFlatTailStats(&stats)}
	if in.T0 != nil {
		t0 = in.T0.sparse()
		opts = append(opts, basic.WithInitialTrust(t0))
	}
	var resIn *sparse.Vector
	var resInBefore Vec
	if in.ResultDim != nil {
		resIn = &sparse.Vector{Dim: *in.ResultDim, Entries: []sparse.Entry{{Index: 0, Value: 42}}}
		resInBefore = vecOf(resIn)
		opts = append(opts, basic.WithResultIn(resIn))
	}
	if in.FlatTail != nil {
		opts = append(opts, basic.WithFlatTail(*in.FlatTail))
	}
	if in.NumLeaders != nil {
		opts = append(opts, basic.WithFlatTailNumLeaders(*in.NumLeaders))
	}
	if in.UseWithIt && in.Max != nil && in.Min != nil && *in.Max == *in.Min {
		opts = append(opts, basic.WithIterations(*in.Max))
	} else {
		if in.Max != nil {
			opts = append(opts, basic.WithMaxIterations(*in.Max))
		}
		if in.Min != nil {
			opts = append(opts, basic.WithMinIterations(*in.Min))
		}
	}
	if in.Freq != nil {
		opts = append(opts, basic.WithCheckFreq(*in.Freq))
	}
	if in.Reweigh > 0 {
		func() {
			defer func() { _ = recover() }()
			for _, row := range c.Entries {
				if len(row) > 1 {
					first := row[0].Value
					for k := 0; k+1 < len(row); k++ {
						row[k].Value = row[k+1].Value
					}
					row[len(row)-1].Value = first
				}
			}
			_, _ = basic.Compute(newFuelCtx(context.Background(), 400), c, in.P.sparse(), float64(in.A), float64(in.E))
			orig := in.C.csr()
			hasZero := false // a merge erases explicitly stored zeros: those matrices are restored in place
			for _, row := range orig.Entries {
				for _, e := range row {
					hasZero = hasZero || e.Value == 0
				}
			}
			if in.Reweigh == 2 && !hasZero {
				c.Merge(&orig.CSMatrix)
			} else {
				for i, row := range c.Entries {
					for k := range row {
						row[k].Value = orig.Entries[i][k].Value
					}
				}
			}
		}()
	}
	for i := 0; i < in.Repeat; i++ { // a pure function of its inputs: earlier calls must not matter
		func() {
			defer func() { _ = recover() }()
			o2 := append([]basic.ComputeOpt{}, opts...)
			if i%2 == 1 {
				var st basic.FlatTailStats
				o2 = append(o2, basic.WithFlatTailStats(&st))
			} // otherwise the caller's stats struct is reused: the measured run starts from a used one
			if resIn != nil {
				o2 = append(o2, basic.WithResultIn(&sparse.Vector{Dim: *in.ResultDim}))
			}
			_, _ = basic.Compute(ctx, c, p, float64(in.A), float64(in.E), o2...)
		}()
		if fc, ok := ctx.(*fuelCtx); ok {
			fc.n.Store(0)
		}
	}
	start := time.Now()
	var t *sparse.Vector
	var err error
	func() {
		defer func() {
			if r := recover(); r != nil {
				obs.Kind = "panic"
				obs.Err = fmt.Sprint(r)
			}
		}()
		t, err = basic.Compute(ctx, c, p, float64(in.A), float64(in.E), opts...)
	}()
	obs.WallMs = float64(time.Since(start).Microseconds()) / 1000
	obs.InputsSame = sameMat(in.C, &c.CSMatrix) && sameVec(in.P, p) && (in.T0 == nil || sameVec(*in.T0, t0))
	if obs.Kind == "panic" {
		return
	}
	if err != nil {
		obs.Code = errCode(err)
		obs.Err = err.Error()
		obs.Kind = "failed"
		if obs.Code == 11 {
			obs.Kind = "timeout"
		}
		obs.ResultInOK = resIn == nil || sameVec(resInBefore, resIn)
		return
	}
	obs.Kind = "done"
	tv := vecOf(t)
	obs.T = &tv
	obs.ResultInOK = resIn == nil || (resIn == t && sameVec(tv, resIn))
	obs.Iters = -1
	for _, line := range strings.Split(buf.String(), "\n") {
		if strings.Contains(line, `"message":"finished"`) {
			var rec struct {
				Iterations int `json:"iterations"`
			}
			if json.Unmarshal([]byte(line), &rec) == nil {
				obs.Iters = rec.Iterations
			}
		}
	}
	obs.Len, obs.Thr, obs.Delta = stats.Length, stats.Threshold, JFloat(stats.DeltaNorm)
	obs.HasRanking = stats.Ranking != nil
	obs.Ranking = stats.Ranking
	return
}

func optZ(p *int) string {
	if p == nil {
		return "None"
	}
	if *p < 0 {
		return fmt.Sprintf("(zs (%d))", *p)
	}
	return fmt.Sprintf("(zs %d)", *p)
}
func zOr0(p *int) string {
	if p == nil {
		return "0"
	}
	if *p < 0 {
		return fmt.Sprintf("(%d)", *p)
	}
	return fmt.Sprint(*p)
}

// coqCompute renders the case as a Corr.ComputeCase.ccase term.
func coqCompute(in *ComputeIn, obs *ComputeObs) string {
	t0 := "None"
	if in.T0 != nil {
		t0 = "(Some " + cVec(*in.T0) + ")"
	}
	rd := "None"
	if in.ResultDim != nil {
		rd = fmt.Sprintf("(ns %d)", *in.ResultDim)
	}
	mx, mn := in.Max, in.Min
	o := fmt.Sprintf("(CO %s %s %s %s %s %s %s)", t0, rd, zOr0(in.FlatTail), zOr0(in.NumLeaders), optZ(mx), optZ(mn), optZ(in.Freq))
	var ob string
	switch obs.Kind {
	case "done":
		var rk []string
		for _, i := range obs.Ranking {
			rk = append(rk, fmt.Sprintf("%d%%N", i))
		}
		ob = fmt.Sprintf("(ODone %s %d %d %d %s %s %s)", cVec(*obs.T), obs.Iters, obs.Len, obs.Thr, cf(float64(obs.Delta)), cBool(obs.HasRanking), cList(rk))
	case "failed":
		ob = fmt.Sprintf("(OFailed %d)", obs.Code)
	case "timeout":
		ob = "OTimeout"
	default:
		ob = "OPanic"
	}
	return fmt.Sprintf("CC %s %s %s %s %s %d %s", cMat(in.C), cVec(in.P), cf(float64(in.A)), cf(float64(in.E)), o, in.Fuel, ob)
}

func ip(i int) *int { return &i }

// canonical inputs -----------------------------------------------------------

// canonInputs canonicalises (c, p) with the library itself, as every front-end does.
func canonInputs(c Mat, p Vec) (Mat, Vec, error) {
	cm := c.csr()
	pv := p.sparse()
	basic.CanonicalizeTrustVector(pv)
	if err := basic.CanonicalizeLocalTrust(cm, pv); err != nil {
		return c, p, err
	}
	return matOf(&cm.CSMatrix), vecOf(pv), nil
}

// canonVec canonicalises a trust vector with the library.
func canonVec(v Vec) Vec {
	sv := v.sparse()
	basic.CanonicalizeTrustVector(sv)
	return vecOf(sv)
}

// randGraph returns a non-negative local trust matrix of one of the graph
// families of DESIGN.md 4.3 and a non-negative pre-trust vector.
func randGraph(r *Rng, n int) (Mat, Vec, string) {
	m := Mat{Major: n, Minor: n, Rows: make([][]Ent, n)}
	add := func(i, j int, v float64) {
		for k := range m.Rows[i] {
			if m.Rows[i][k].I == j {
				m.Rows[i][k].V = JFloat(v)
				return
			}
		}
		m.Rows[i] = append(m.Rows[i], Ent{I: j, V: JFloat(v)})
	}
	kind := []string{"random", "cycle", "two-cycles", "star", "sinks", "self-loops", "disconnected", "wide-weights", "dense", "subnormal"}[r.Intn(10)]
	switch kind {
	case "cycle": // periodic
		for i := 0; i < n; i++ {
			add(i, (i+1)%n, 1)
		}
	case "two-cycles": // bipartite / 2-periodic
		for i := 0; i+1 < n; i += 2 {
			add(i, i+1, r.Pos())
			add(i+1, i, r.Pos())
		}
	case "star":
		for i := 1; i < n; i++ {
			add(i, 0, r.Pos())
			if r.Bool() {
				add(0, i, r.Pos())
			}
		}
	case "sinks": // many peers without outgoing trust
		for i := 0; i < n; i++ {
			if r.Chance(40) {
				add(i, r.Intn(n), r.Pos())
			}
		}
	case "self-loops":
		for i := 0; i < n; i++ {
			add(i, i, r.Pos())
			if r.Bool() {
				add(i, r.Intn(n), r.Pos())
			}
		}
	case "disconnected":
		h := n / 2
		for i := 0; i < n; i++ {
			if i < h {
				add(i, r.Intn(h+1)%n, r.Pos())
			} else {
				add(i, h+r.Intn(n-h), r.Pos())
			}
		}
	case "wide-weights":
		for i := 0; i < n; i++ {
			for k := 0; k < 1+r.Intn(3); k++ {
				add(i, r.Intn(n), mathLdexp(r.F01()+0.5, r.Intn(80)-40))
			}
		}
	case "dense":
		for i := 0; i < n; i++ {
			for j := 0; j < n; j++ {
				add(i, j, r.Pos())
			}
		}
	case "subnormal": // weights at the bottom of the binary64 range next to ordinary ones: scores underflow
		for i := 0; i < n; i++ {
			hi := n - 1 - r.Intn((n+1)/2) // an ordinary weight on a high index ...
			add(i, hi, 1)
			if r.Bool() {
				add(i, r.Intn(n), r.Pos())
			}
			for k := 0; k < 2+r.Intn(3); k++ { // ... and several vanishing ones, mostly on lower indices
				add(i, r.Intn(hi+1), []float64{5e-324, 1e-323, 1e-323, 2.5e-323, 1e-320}[r.Intn(5)])
			}
			add(i, hi, 1)
		}
	default:
		for i := 0; i < n; i++ {
			for k := 0; k < r.Intn(4); k++ {
				add(i, r.Intn(n), r.Pos())
			}
		}
	}
	if r.Chance(25) { // a peer whose only entries are explicit zeros (as a gRPC update with zero values leaves behind)
		i := r.Intn(n)
		m.Rows[i] = nil
		for k := 0; k < 1+r.Intn(2); k++ {
			add(i, r.Intn(n), 0)
		}
	}
	for i := range m.Rows {
		es := m.Rows[i]
		// sort by index
		for a := 1; a < len(es); a++ {
			for b := a; b > 0 && es[b].I < es[b-1].I; b-- {
				es[b], es[b-1] = es[b-1], es[b]
			}
		}
	}
	p := Vec{Dim: n}
	switch r.Intn(4) {
	case 0: // uniform (left empty: canonicalised into uniform)
	case 1:
		p.Ents = []Ent{{I: r.Intn(n), V: 1}}
	default:
		p.Ents = sortedSpan(r, n, r.Pick(30, 70, 100), 0, r.Pos)
	}
	if r.Chance(20) && len(p.Ents) > 1 {
		// an explicitly listed zero (a pre-trust file line "peer,0") or a value that underflows when scaled,
		// in front of ordinary entries
		p.Ents[r.Intn(len(p.Ents)-1)].V = JFloat([]float64{0, 5e-324, 1e-323}[r.Intn(3)])
	}
	return m, p, kind
}

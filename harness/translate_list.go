package main

import (
	"fmt"
	"go/ast"
	"go/parser"
	"go/token"
	"strings"
)

// Second layer of the translator: functions over a slice of sparse.Entry that use a KBNSummer.
// Supported on top of the scalar statements of translate.go:
//   var x sparse.KBNSummer                         (zero value)
//   for _, e := range xs { x.Add(<expr over e.Value, e.Index, scalars>) }     -> fold_left with the translated Add
//   y := x.Sum()                                    -> the translated Sum
//   if <cond> { return sparse.ErrZeroSum }          -> early exit
//   for i := range xs { xs[i].Value op= <expr> }    -> map
//   return nil                                      -> Ok xs
// The result type is [res (list (nat * S))] (Model/Sparse.v).

type ltrans struct {
	*trans
	list    string          // Go name of the slice parameter
	listCur string          // current Gallina name of the list
	summers map[string]bool // KBNSummer variables
	kfields []string        // fields of KBNSummer, declaration order
	lines   []string
	lcnt    int
	closers int
}

func (t *ltrans) flush() {
	t.lines = append(t.lines, t.lets...)
	t.lets = nil
}

// scalar expression, with x.Sum() and elem.Value / elem.Index available
func (t *ltrans) lexpr(e ast.Expr, elem string) (string, error) {
	// rewrite on the fly: temporarily bind elem.Value / elem.Index
	if elem != "" {
		t.cur[elem+".Value"] = "(snd " + elem + ")"
		defer delete(t.cur, elem+".Value")
	}
	return t.expr2(e, elem)
}

func (t *ltrans) expr2(e ast.Expr, elem string) (string, error) {
	switch x := e.(type) {
	case *ast.CallExpr:
		if sel, ok := x.Fun.(*ast.SelectorExpr); ok && len(x.Args) == 0 && sel.Sel.Name == "Sum" {
			if id, ok := sel.X.(*ast.Ident); ok && t.summers[id.Name] {
				var fs []string
				for _, f := range t.kfields {
					fs = append(fs, t.cur[id.Name+"."+f])
				}
				return "(gen_kbn_sum " + strings.Join(fs, " ") + ")", nil
			}
		}
	case *ast.SelectorExpr:
		if id, ok := x.X.(*ast.Ident); ok && elem != "" && id.Name == elem && x.Sel.Name == "Value" {
			return "(snd " + elem + ")", nil
		}
	case *ast.BinaryExpr:
		a, err := t.expr2(x.X, elem)
		if err != nil {
			return "", err
		}
		b, err := t.expr2(x.Y, elem)
		if err != nil {
			return "", err
		}
		// reuse the operator table of the scalar layer through a synthetic expression
		t.cur["__a"], t.cur["__b"] = a, b
		defer delete(t.cur, "__a")
		defer delete(t.cur, "__b")
		return t.expr(&ast.BinaryExpr{X: ast.NewIdent("__a"), Op: x.Op, Y: ast.NewIdent("__b")})
	case *ast.ParenExpr:
		return t.expr2(x.X, elem)
	}
	return t.expr(e)
}

func (t *ltrans) run(l []ast.Stmt) (string, error) {
	for idx, s := range l {
		switch x := s.(type) {
		case *ast.DeclStmt:
			gd, ok := x.Decl.(*ast.GenDecl)
			if !ok || gd.Tok != token.VAR || len(gd.Specs) != 1 {
				return "", fmt.Errorf("unsupported declaration")
			}
			vs := gd.Specs[0].(*ast.ValueSpec)
			tn := ""
			switch ty := vs.Type.(type) {
			case *ast.SelectorExpr:
				tn = ty.Sel.Name
			case *ast.Ident:
				tn = ty.Name
			}
			if tn != "KBNSummer" || len(vs.Values) != 0 || len(vs.Names) != 1 {
				return "", fmt.Errorf("unsupported var declaration")
			}
			n := vs.Names[0].Name
			t.summers[n] = true
			for _, f := range t.kfields {
				t.cur[n+"."+f] = "(zero S)"
			}
		case *ast.RangeStmt:
			id, ok := x.X.(*ast.Ident)
			if !ok || id.Name != t.list || len(x.Body.List) != 1 {
				return "", fmt.Errorf("unsupported range loop")
			}
			key, _ := x.Key.(*ast.Ident)
			if x.Value != nil { // for _, e := range xs { summer.Add(expr) }
				el, ok := x.Value.(*ast.Ident)
				if !ok || key == nil || key.Name != "_" {
					return "", fmt.Errorf("unsupported range variables")
				}
				es, ok := x.Body.List[0].(*ast.ExprStmt)
				if !ok {
					return "", fmt.Errorf("unsupported loop body")
				}
				call, ok := es.X.(*ast.CallExpr)
				if !ok || len(call.Args) != 1 {
					return "", fmt.Errorf("unsupported loop body")
				}
				sel, ok := call.Fun.(*ast.SelectorExpr)
				if !ok || sel.Sel.Name != "Add" {
					return "", fmt.Errorf("unsupported loop body")
				}
				sid, ok := sel.X.(*ast.Ident)
				if !ok || !t.summers[sid.Name] || len(t.kfields) != 2 {
					return "", fmt.Errorf("unsupported loop body")
				}
				arg, err := t.lexpr(call.Args[0], el.Name)
				if err != nil {
					return "", err
				}
				t.flush()
				t.lcnt++
				a, b := fmt.Sprintf("%s_%s_%d", sid.Name, t.kfields[0], t.lcnt), fmt.Sprintf("%s_%s_%d", sid.Name, t.kfields[1], t.lcnt)
				t.lines = append(t.lines, fmt.Sprintf("let '(%s, %s) := List.fold_left (fun st %s => gen_kbn_add (fst st) (snd st) %s) %s (%s, %s) in",
					a, b, el.Name, arg, t.listCur, t.cur[sid.Name+"."+t.kfields[0]], t.cur[sid.Name+"."+t.kfields[1]]))
				t.cur[sid.Name+"."+t.kfields[0]], t.cur[sid.Name+"."+t.kfields[1]] = a, b
				continue
			}
			// for i := range xs { xs[i].Value op= expr }
			as, ok := x.Body.List[0].(*ast.AssignStmt)
			if !ok || key == nil || len(as.Lhs) != 1 {
				return "", fmt.Errorf("unsupported loop body")
			}
			op, ok := opOf[as.Tok]
			if !ok {
				return "", fmt.Errorf("unsupported loop body")
			}
			sel, ok := as.Lhs[0].(*ast.SelectorExpr)
			if !ok || sel.Sel.Name != "Value" {
				return "", fmt.Errorf("unsupported loop body")
			}
			ix, ok := sel.X.(*ast.IndexExpr)
			if !ok {
				return "", fmt.Errorf("unsupported loop body")
			}
			if a, ok := ix.X.(*ast.Ident); !ok || a.Name != t.list {
				return "", fmt.Errorf("unsupported loop body")
			}
			if a, ok := ix.Index.(*ast.Ident); !ok || a.Name != key.Name {
				return "", fmt.Errorf("unsupported loop body")
			}
			r, err := t.lexpr(as.Rhs[0], "")
			if err != nil {
				return "", err
			}
			t.flush()
			t.lcnt++
			n := fmt.Sprintf("%s_%d", t.list, t.lcnt)
			t.lines = append(t.lines, fmt.Sprintf("let %s := List.map (fun e => (fst e, %s S (snd e) %s)) %s in", n, op, r, t.listCur))
			t.listCur = n
		case *ast.IfStmt:
			// early exit with ErrZeroSum
			if x.Init == nil && x.Else == nil && len(x.Body.List) == 1 {
				if rs, ok := x.Body.List[0].(*ast.ReturnStmt); ok && len(rs.Results) == 1 {
					name := ""
					switch r := rs.Results[0].(type) {
					case *ast.SelectorExpr:
						name = r.Sel.Name
					case *ast.Ident:
						name = r.Name
					}
					if name != "ErrZeroSum" {
						return "", fmt.Errorf("unsupported early return")
					}
					c, err := t.lexpr(x.Cond, "")
					if err != nil {
						return "", err
					}
					t.flush()
					t.lines = append(t.lines, fmt.Sprintf("if %s then ErrZeroSum else", c))
					continue
				}
			}
			return "", fmt.Errorf("unsupported if")
		case *ast.AssignStmt:
			// scalar assignment whose right-hand side may call x.Sum()
			if len(x.Lhs) == 1 && len(x.Rhs) == 1 && (x.Tok == token.DEFINE || x.Tok == token.ASSIGN) {
				k, err := t.key(x.Lhs[0])
				if err != nil {
					return "", err
				}
				r, err := t.lexpr(x.Rhs[0], "")
				if err != nil {
					return "", err
				}
				t.assign(k, r)
				continue
			}
			if err := t.stmts([]ast.Stmt{s}); err != nil {
				return "", err
			}
		case *ast.ReturnStmt:
			if idx != len(l)-1 || len(x.Results) != 1 {
				return "", fmt.Errorf("unsupported return")
			}
			if id, ok := x.Results[0].(*ast.Ident); !ok || id.Name != "nil" {
				return "", fmt.Errorf("unsupported return value")
			}
			t.flush()
			return "Ok " + t.listCur, nil
		default:
			return "", fmt.Errorf("unsupported statement %T", s)
		}
	}
	return "", fmt.Errorf("missing return")
}

func structFields(f *ast.File, typ string) []string {
	var fields []string
	for _, d := range f.Decls {
		if gd, ok := d.(*ast.GenDecl); ok {
			for _, sp := range gd.Specs {
				if ts, ok := sp.(*ast.TypeSpec); ok && ts.Name.Name == typ {
					if st, ok := ts.Type.(*ast.StructType); ok {
						for _, fl := range st.Fields.List {
							for _, n := range fl.Names {
								fields = append(fields, n.Name)
							}
						}
					}
				}
			}
		}
	}
	return fields
}

// translateCanonicalize renders basic.Canonicalize (eigentrust.go) given the KBNSummer declaration (util.go).
func translateCanonicalize(utilSrc, basicSrc string) (string, error) {
	fset := token.NewFileSet()
	fu, err := parser.ParseFile(fset, utilSrc, nil, 0)
	if err != nil {
		return "", err
	}
	fb, err := parser.ParseFile(fset, basicSrc, nil, 0)
	if err != nil {
		return "", err
	}
	kf := structFields(fu, "KBNSummer")
	if len(kf) != 2 {
		return "", fmt.Errorf("KBNSummer does not have two fields")
	}
	for _, d := range fb.Decls {
		fd, ok := d.(*ast.FuncDecl)
		if !ok || fd.Name.Name != "Canonicalize" || fd.Recv != nil {
			continue
		}
		if len(fd.Type.Params.List) != 1 || len(fd.Type.Params.List[0].Names) != 1 {
			return "", fmt.Errorf("Canonicalize: unsupported parameters")
		}
		p := fd.Type.Params.List[0].Names[0].Name
		t := &ltrans{trans: &trans{cur: map[string]string{}, cnt: map[string]int{}}, list: p, listCur: p, summers: map[string]bool{}, kfields: kf}
		res, err := t.run(fd.Body.List)
		if err != nil {
			return "", fmt.Errorf("Canonicalize: %v", err)
		}
		var b strings.Builder
		fmt.Fprintf(&b, "Definition gen_canon {S : ScalarOps} (%s : list (nat * S)) : res (list (nat * S)) :=\n", p)
		for _, l := range t.lines {
			fmt.Fprintf(&b, "  %s\n", l)
		}
		fmt.Fprintf(&b, "  %s.\n", res)
		return b.String(), nil
	}
	return "", fmt.Errorf("Canonicalize not found")
}

package main

import (
	"bufio"
	"fmt"
	"os"
	"strings"
	"unsafe"

	"k3l.io/go-eigentrust/pkg/sparse"
)

// allCsmMappings lists the address ranges of the eigentrust-server-csmatrix.* file mappings of this process.
func allCsmMappings() (out [][2]uintptr) {
	f, err := os.Open("/proc/self/maps")
	if err != nil {
		return nil
	}
	defer f.Close()
	sc := bufio.NewScanner(f)
	for sc.Scan() {
		l := sc.Text()
		if strings.Contains(l, "eigentrust-server-csmatrix") {
			var a, b uintptr
			fmt.Sscanf(strings.Fields(l)[0], "%x-%x", &a, &b)
			out = append(out, [2]uintptr{a, b})
		}
	}
	return
}

// csmMappingsOf returns the mappings that contain at least one row of m.
func csmMappingsOf(m *sparse.Matrix) (out [][2]uintptr) {
	for _, r := range allCsmMappings() {
		for _, row := range m.Entries {
			if len(row) == 0 {
				continue
			}
			p := uintptr(unsafe.Pointer(unsafe.SliceData(row)))
			if p >= r[0] && p < r[1] {
				out = append(out, r)
				break
			}
		}
	}
	return
}
